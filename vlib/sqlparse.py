"""Reference SQL *expression* grammars (SQLite, PostgreSQL, MySQL/MariaDB): tokenizer + precedence
parser producing a small AST.  Trusted base of engine E2 (translation validation).

Grammar tables follow
  * SQLite  parse.y   (%left OR / AND / %right NOT / IS MATCH LIKE BETWEEN IN ISNULL NOTNULL NE EQ /
                       GT LE LT GE / %right ESCAPE / BITAND BITOR LSHIFT RSHIFT / PLUS MINUS /
                       STAR SLASH REM / CONCAT PTR / COLLATE / %right BITNOT(unary))
  * PostgreSQL gram.y (OR / AND / %right NOT / %nonassoc IS ISNULL NOTNULL / %nonassoc < > = <= >= <> /
                       %nonassoc BETWEEN IN LIKE ILIKE SIMILAR / ESCAPE / %left Op (any other operator,
                       incl. ||) / + - / * / % / ^ / AT / COLLATE / %right UMINUS / [] / :: / .)
  * MySQL   sql_yacc.yy stratified grammar expr > bool_pri > predicate > bit_expr > simple_expr.

AST nodes (tuples):
  ('col', name) ('lit', value) ('param', index_or_name) ('neg', a) ('bitnot', a)
  ('bin', op, a, b)    op in + - * / % || & | << >> ^
  ('cmp', op, a, b)    op in = != < <= > >=
  ('nsafe_eq', a, b) ('nsafe_ne', a, b) ('is_null', a) ('not_null', a)
  ('is_bool', a, True|False|None(unknown), negated)
  ('like', a, b, esc|None, negated, kind) ('in', a, [items] | ('subq', text), negated)
  ('between', a, lo, hi, negated) ('and', a, b) ('or', a, b) ('not', a)
  ('case', operand|None, [(when, then)...], else|None) ('cast', a, typename) ('func', name, [args])
  ('collate', a, name) ('row', [items]) ('subq', text) ('exists', text)
"""
from __future__ import annotations

import re
from typing import Any, List, Optional, Tuple


class ParseError(Exception):
    pass


# ----------------------------------------------------------------------------------------------
# tokenizer

_WORD = re.compile(r"[A-Za-z_][A-Za-z_0-9$]*")
_NUM = re.compile(r"(?:\d+\.\d*(?:[eE][+-]?\d+)?|\.\d+(?:[eE][+-]?\d+)?|\d+(?:[eE][+-]?\d+)?)")
_OPS3 = ["->>", "<=>"]
_OPS2 = ["||", "<=", ">=", "<>", "!=", "==", "<<", ">>", "::", "->", "&&"]
_OPS1 = list("+-*/%=<>(),.&|~^[]!")


class Tok:
    __slots__ = ("kind", "val", "pos")

    def __init__(self, kind, val, pos):
        self.kind, self.val, self.pos = kind, val, pos

    def __repr__(self):
        return "%s:%r" % (self.kind, self.val)


def tokenize(sql: str, dialect: str, percent_doubled: bool = False) -> List[Tok]:
    """dialect in sqlite|postgresql|mysql.  ``percent_doubled``: text was rendered for a
    format/pyformat driver (``%%`` stands for one ``%``)."""
    toks: List[Tok] = []
    i, n = 0, len(sql)
    nparam = 0
    while i < n:
        c = sql[i]
        if c.isspace():
            i += 1
            continue
        # comments change the shape of a statement: surface them
        if sql.startswith("--", i) or sql.startswith("/*", i) or (dialect == "mysql" and c == "#"):
            raise ParseError("comment introducer at %d in %r" % (i, sql))
        if sql.startswith("__[POSTCOMPILE_", i):
            j = sql.index("]", i)
            toks.append(Tok("param", sql[i + 15:j], i))
            i = j + 1
            continue
        if c == "'" or (c in "NnEe" and i + 1 < n and sql[i + 1] == "'" and (c in "Nn" or dialect == "postgresql")):
            prefix = ""
            if c != "'":
                prefix = c.upper()
                i += 1
            j = i + 1
            buf = []
            backslash = (dialect == "mysql") or prefix == "E"
            while True:
                if j >= n:
                    raise ParseError("unterminated string in %r" % sql)
                ch = sql[j]
                if ch == "'":
                    if j + 1 < n and sql[j + 1] == "'":
                        buf.append("'")
                        j += 2
                        continue
                    break
                if ch == "\\" and backslash:
                    if j + 1 >= n:
                        raise ParseError("dangling backslash")
                    esc = sql[j + 1]
                    buf.append({"n": "\n", "t": "\t", "0": "\0", "r": "\r", "b": "\b", "Z": "\x1a"}.get(esc, esc))
                    j += 2
                    continue
                if ch == "%" and percent_doubled:
                    if j + 1 < n and sql[j + 1] == "%":
                        buf.append("%")
                        j += 2
                        continue
                    raise ParseError("single %% inside string for a format-style driver in %r" % sql)
                buf.append(ch)
                j += 1
            toks.append(Tok("str", "".join(buf), i))
            i = j + 1
            continue
        if c == '"' or (c == "`" and dialect in ("mysql", "sqlite")) or (c == "[" and dialect == "sqlite" and False):
            q = c
            j = i + 1
            buf = []
            while True:
                if j >= n:
                    raise ParseError("unterminated quoted identifier")
                if sql[j] == q:
                    if j + 1 < n and sql[j + 1] == q:
                        buf.append(q)
                        j += 2
                        continue
                    break
                buf.append(sql[j])
                j += 1
            toks.append(Tok("ident", "".join(buf), i))
            i = j + 1
            continue
        if c == "?":
            toks.append(Tok("param", nparam, i))
            nparam += 1
            i += 1
            continue
        if c == "%":
            if not percent_doubled:
                toks.append(Tok("op", "%", i))
                i += 1
                continue
            if sql.startswith("%%", i):
                toks.append(Tok("op", "%", i))
                i += 2
                continue
            if sql.startswith("%s", i):
                toks.append(Tok("param", nparam, i))
                nparam += 1
                i += 2
                continue
            m = re.match(r"%\(([^)]*)\)s", sql[i:])
            if m:
                toks.append(Tok("param", m.group(1), i))
                i += m.end()
                continue
            raise ParseError("single %% for a format-style driver at %d in %r" % (i, sql))
        if c == ":" and i + 1 < n and (sql[i + 1].isalpha() or sql[i + 1] == "_") and not sql.startswith("::", i):
            m = _WORD.match(sql, i + 1)
            toks.append(Tok("param", m.group(0), i))
            i = m.end()
            continue
        if c == ":" and i + 1 < n and sql[i + 1].isdigit():
            m = re.match(r"\d+", sql[i + 1:])
            toks.append(Tok("param", int(m.group(0)) - 1, i))
            i += 1 + m.end()
            continue
        if c == "$" and i + 1 < n and sql[i + 1].isdigit():
            m = re.match(r"\d+", sql[i + 1:])
            toks.append(Tok("param", int(m.group(0)) - 1, i))
            i += 1 + m.end()
            continue
        m = _NUM.match(sql, i)
        if m and (c.isdigit() or (c == "." and i + 1 < n and sql[i + 1].isdigit())):
            txt = m.group(0)
            # an identifier character directly after a number is not a number token
            if m.end() < n and (sql[m.end()].isalpha() or sql[m.end()] == "_"):
                raise ParseError("malformed numeric literal at %d in %r" % (i, sql))
            toks.append(Tok("num", txt, i))
            i = m.end()
            continue
        m = _WORD.match(sql, i)
        if m:
            toks.append(Tok("word", m.group(0), i))
            i = m.end()
            continue
        for ops in (_OPS3, _OPS2, _OPS1):
            hit = None
            for o in ops:
                if sql.startswith(o, i):
                    hit = o
                    break
            if hit:
                toks.append(Tok("op", hit, i))
                i += len(hit)
                break
        else:
            raise ParseError("unexpected character %r at %d in %r" % (c, i, sql))
    toks.append(Tok("eof", None, n))
    return toks


# ----------------------------------------------------------------------------------------------
# grammar tables: level numbers, higher binds tighter

GRAMMARS = {
    "sqlite": dict(
        OR=1, AND=2, NOT=3, EQ=4, CMP=5, ESCAPE=6, BIT=7, ADD=8, MUL=9, CONCAT=10, COLLATE=11, UNARY=12,
        # in SQLite IS / BETWEEN / IN / LIKE / = / != share one left-associative level
        IS=4, PRED=4, eq_assoc="left", cmp_assoc="left", pred_assoc="left", is_assoc="left",
        concat_is_or=False, bitops={"&": 7, "|": 7, "<<": 7, ">>": 7}, pow=None,
        like_rhs=None,
    ),
    "postgresql": dict(
        OR=1, AND=2, NOT=3, IS=4, EQ=5, CMP=5, PRED=6, ESCAPE=7, OTHER=8, ADD=9, MUL=10, POW=11, COLLATE=13, UNARY=14,
        eq_assoc="non", cmp_assoc="non", pred_assoc="non", is_assoc="non",
        CONCAT=8, concat_is_or=False, bitops={"&": 8, "|": 8, "<<": 8, ">>": 8, "#": 8}, pow=11,
        like_rhs=None,
    ),
    "mysql": dict(
        OR=1, XOR=2, AND=3, NOT=4, ISBOOL=5, EQ=6, CMP=6, IS=6, PRED=7, ESCAPE=7, ADD=11, MUL=12, POW=13, UNARY=14, COLLATE=15,
        eq_assoc="left", cmp_assoc="left", pred_assoc="non", is_assoc="left",
        CONCAT=1, concat_is_or=True, bitops={"|": 8, "&": 9, "<<": 10, ">>": 10}, pow=13,
        like_rhs=14,  # bit_expr LIKE simple_expr
    ),
}

_CMP_EQ = {"=": "=", "==": "=", "<>": "!=", "!=": "!="}
_CMP_REL = {"<": "<", "<=": "<=", ">": ">", ">=": ">="}
_KEYWORDS_VALUE = {"NULL", "TRUE", "FALSE"}


class Parser:
    def __init__(self, toks: List[Tok], dialect: str):
        self.t = toks
        self.i = 0
        self.d = dialect
        self.g = GRAMMARS[dialect]

    # -- token helpers
    def peek(self, k=0) -> Tok:
        return self.t[min(self.i + k, len(self.t) - 1)]

    def next(self) -> Tok:
        tok = self.t[self.i]
        self.i += 1
        return tok

    def is_word(self, *words, k=0) -> bool:
        tok = self.peek(k)
        return tok.kind == "word" and tok.val.upper() in words

    def is_op(self, *ops, k=0) -> bool:
        tok = self.peek(k)
        return tok.kind == "op" and tok.val in ops

    def expect_op(self, op):
        if not self.is_op(op):
            raise ParseError("expected %r at %s" % (op, self.peek()))
        self.next()

    def expect_word(self, w):
        if not self.is_word(w):
            raise ParseError("expected %s at %s" % (w, self.peek()))
        self.next()

    # -- entry
    def parse(self):
        e = self.expr(0)
        if self.peek().kind != "eof":
            raise ParseError("trailing tokens at %s" % (self.peek(),))
        return e

    # -- infix classification: returns (name, level, assoc) or None
    def infix(self):
        g = self.g
        tok = self.peek()
        if tok.kind == "op":
            v = tok.val
            if v in _CMP_EQ:
                return ("cmp", g["EQ"], g["eq_assoc"])
            if v in _CMP_REL:
                return ("cmp", g["CMP"], g["cmp_assoc"])
            if v == "<=>" and self.d == "mysql":
                return ("nsafe", g["EQ"], g["eq_assoc"])
            if v == "||":
                return ("concat", g["CONCAT"], "left")
            if v == "&&" and self.d == "mysql":
                return ("and", g["AND"], "left")
            if v in ("+", "-"):
                return ("arith", g["ADD"], "left")
            if v in ("*", "/", "%"):
                return ("arith", g["MUL"], "left")
            if v == "^" and g["pow"]:
                return ("arith", g["pow"], "left")
            if v in g["bitops"]:
                return ("arith", g["bitops"][v], "left")
            if v == "::" and self.d == "postgresql":
                return ("typecast", 16, "left")
            if v in ("->", "->>"):
                return ("arith", g["CONCAT"] if self.d != "mysql" else 14, "left")
            return None
        if tok.kind == "word":
            w = tok.val.upper()
            if w == "OR":
                return ("or", g["OR"], "left")
            if w == "XOR" and self.d == "mysql":
                return ("xor", g["XOR"], "left")
            if w == "AND":
                return ("and", g["AND"], "left")
            if w == "IS":
                return ("is", g["IS"], g["is_assoc"])
            if w in ("ISNULL", "NOTNULL") and self.d in ("sqlite", "postgresql"):
                return ("isnullkw", g["IS"], g["is_assoc"])
            if w in ("LIKE", "ILIKE", "GLOB", "REGEXP", "MATCH", "RLIKE", "SIMILAR"):
                return ("like", g["PRED"], g["pred_assoc"])
            if w == "IN":
                return ("in", g["PRED"], g["pred_assoc"])
            if w == "BETWEEN":
                return ("between", g["PRED"], g["pred_assoc"])
            if w == "NOT":
                nxt = self.peek(1)
                if nxt.kind == "word" and nxt.val.upper() in ("LIKE", "ILIKE", "GLOB", "REGEXP", "MATCH", "RLIKE", "SIMILAR"):
                    return ("like", g["PRED"], g["pred_assoc"])
                if nxt.kind == "word" and nxt.val.upper() == "IN":
                    return ("in", g["PRED"], g["pred_assoc"])
                if nxt.kind == "word" and nxt.val.upper() == "BETWEEN":
                    return ("between", g["PRED"], g["pred_assoc"])
                if nxt.kind == "word" and nxt.val.upper() == "NULL" and self.d == "sqlite":
                    return ("isnullkw", g["IS"], g["is_assoc"])
                return None
            if w == "COLLATE":
                return ("collate", g["COLLATE"], "left")
            if w in ("DIV", "MOD") and self.d == "mysql":
                return ("arith", g["MUL"], "left")
        return None

    def expr(self, min_bp: int):
        left = self.prefix(min_bp)
        last_nonassoc_level = None
        while True:
            inf = self.infix()
            if inf is None:
                break
            name, level, assoc = inf
            if level < min_bp:
                break
            if assoc == "non" and last_nonassoc_level == level:
                raise ParseError("non-associative operator chained at %s" % (self.peek(),))
            rbp = level + 1  # left-assoc and non-assoc: right operand binds tighter
            left = self.led(name, level, rbp, left)
            last_nonassoc_level = level if assoc == "non" else None
        return left

    def led(self, name, level, rbp, left):
        g = self.g
        if name == "cmp":
            op = self.next().val
            op = _CMP_EQ.get(op) or _CMP_REL[op]
            right = self.expr(rbp)
            return ("cmp", op, left, right)
        if name == "nsafe":
            self.next()
            return ("nsafe_eq", left, self.expr(rbp))
        if name == "concat":
            self.next()
            right = self.expr(rbp)
            if g["concat_is_or"]:
                return ("or", left, right)
            return ("bin", "||", left, right)
        if name == "arith":
            tok = self.next()
            op = tok.val.upper() if tok.kind == "word" else tok.val
            right = self.expr(rbp)
            return ("bin", op, left, right)
        if name == "typecast":
            self.next()
            return ("typecast", left, self.typename())
        if name in ("or", "and", "xor"):
            self.next()
            right = self.expr(rbp)
            return (name, left, right)
        if name == "collate":
            self.next()
            tok = self.next()
            if tok.kind not in ("word", "ident", "str"):
                raise ParseError("bad collation name")
            return ("collate", left, tok.val)
        if name == "isnullkw":
            tok = self.next()
            w = tok.val.upper()
            if w == "NOT":
                self.next()
                return ("not_null", left)
            return ("is_null", left) if w == "ISNULL" else ("not_null", left)
        if name == "is":
            self.next()
            neg = False
            if self.is_word("NOT"):
                self.next()
                neg = True
            if self.is_word("NULL"):
                self.next()
                return ("not_null", left) if neg else ("is_null", left)
            if self.is_word("DISTINCT"):
                self.next()
                self.expect_word("FROM")
                right = self.expr(rbp)
                # IS DISTINCT FROM = null-safe !=
                return ("nsafe_eq", left, right) if neg else ("nsafe_ne", left, right)
            if self.is_word("TRUE", "FALSE", "UNKNOWN") and self.d != "sqlite":
                w = self.next().val.upper()
                return ("is_bool", left, {"TRUE": True, "FALSE": False, "UNKNOWN": None}[w], neg)
            if self.d == "sqlite":
                right = self.expr(rbp)
                return ("nsafe_ne", left, right) if neg else ("nsafe_eq", left, right)
            raise ParseError("IS must be followed by NULL/TRUE/FALSE/UNKNOWN/DISTINCT FROM at %s" % (self.peek(),))
        neg = False
        if self.is_word("NOT"):
            self.next()
            neg = True
        if name == "like":
            kind = self.next().val.upper()
            if kind == "SIMILAR":
                self.expect_word("TO")
            rhs_bp = g["like_rhs"] or rbp
            pat = self.expr(rhs_bp)
            esc = None
            if self.is_word("ESCAPE"):
                self.next()
                esc = self.expr(g["like_rhs"] or (g["ESCAPE"] + 1))
            return ("like", left, pat, esc, neg, kind)
        if name == "in":
            self.next()
            self.expect_op("(")
            if self.is_word("VALUES") and self.is_op("(", k=1):
                # row-value constructor list: IN (VALUES (a, b), (c, d))
                self.next()
                items = []
                while True:
                    self.expect_op("(")
                    row = [self.expr(0)]
                    while self.is_op(","):
                        self.next()
                        row.append(self.expr(0))
                    self.expect_op(")")
                    items.append(("row", row) if len(row) > 1 else row[0])
                    if self.is_op(","):
                        self.next()
                        continue
                    break
                self.expect_op(")")
                return ("in", left, items, neg)
            if self.is_word("VALUES"):
                raise ParseError("VALUES must be followed by a parenthesised row at %s" % (self.peek(1),))
            if self.is_word("SELECT", "WITH"):
                sub = self.raw_until_close()
                return ("in", left, ("subq", sub), neg)
            items = []
            if not self.is_op(")"):
                items.append(self.expr(0))
                while self.is_op(","):
                    self.next()
                    items.append(self.expr(0))
            self.expect_op(")")
            return ("in", left, items, neg)
        if name == "between":
            self.next()
            if self.is_word("SYMMETRIC", "ASYMMETRIC"):
                raise ParseError("BETWEEN SYMMETRIC not modelled")
            if self.d == "postgresql":
                lo = self.expr(g["EQ"])  # b_expr: no AND/OR/NOT/IS/BETWEEN/IN/LIKE
            elif self.d == "mysql":
                lo = self.expr(g["PRED"] + 1)  # bit_expr
            else:
                lo = self.expr(g["AND"] + 1)
            self.expect_word("AND")
            if self.d == "mysql":
                hi = self.expr(g["PRED"])  # predicate
            else:
                hi = self.expr(rbp)
            return ("between", left, lo, hi, neg)
        raise ParseError("unhandled infix " + name)

    def typename(self) -> str:
        parts = []
        tok = self.next()
        if tok.kind not in ("word", "ident"):
            raise ParseError("type name expected at %s" % (tok,))
        parts.append(tok.val.upper())
        while self.peek().kind == "word" and self.peek().val.upper() in ("PRECISION", "VARYING", "UNSIGNED", "SIGNED", "INTEGER", "WITHOUT", "WITH", "TIME", "ZONE"):
            parts.append(self.next().val.upper())
        if self.is_op("("):
            self.next()
            args = []
            while not self.is_op(")"):
                args.append(str(self.next().val))
            self.next()
            parts.append("(" + "".join(args) + ")")
        while self.is_op("[") and self.is_op("]", k=1):
            self.next(); self.next()
            parts.append("[]")
        return " ".join(parts)

    def raw_until_close(self) -> str:
        """Consume tokens up to the parenthesis closing the current group; return their text."""
        depth = 0
        out = []
        while True:
            tok = self.peek()
            if tok.kind == "eof":
                raise ParseError("unbalanced parenthesis")
            if tok.kind == "op" and tok.val == "(":
                depth += 1
            if tok.kind == "op" and tok.val == ")":
                if depth == 0:
                    self.next()
                    return " ".join(out)
                depth -= 1
            out.append(repr(tok.val) if tok.kind == "str" else str(tok.val))
            self.next()

    def prefix(self, min_bp: int):
        g = self.g
        tok = self.peek()
        if tok.kind == "op":
            if tok.val in ("-", "+", "~") or (tok.val == "!" and self.d == "mysql"):
                self.next()
                operand = self.expr(g["UNARY"])
                return {"-": ("neg", operand), "+": operand, "~": ("bitnot", operand), "!": ("not", operand)}[tok.val]
            if tok.val == "(":
                self.next()
                if self.is_word("SELECT", "VALUES", "WITH"):
                    return ("subq", self.raw_until_close())
                first = self.expr(0)
                if self.is_op(","):
                    items = [first]
                    while self.is_op(","):
                        self.next()
                        items.append(self.expr(0))
                    self.expect_op(")")
                    return ("row", items)
                self.expect_op(")")
                return ("paren", first)
            raise ParseError("unexpected operator %r at %d" % (tok.val, tok.pos))
        if tok.kind == "num":
            self.next()
            txt = tok.val
            if re.fullmatch(r"\d+", txt):
                return ("lit", int(txt))
            return ("lit", float(txt))
        if tok.kind == "str":
            self.next()
            return ("lit", tok.val)
        if tok.kind == "param":
            self.next()
            return ("param", tok.val)
        if tok.kind == "ident":
            self.next()
            return self.after_name(tok.val, quoted=True)
        if tok.kind == "word":
            w = tok.val.upper()
            if w == "NOT":
                self.next()
                if self.is_word("EXISTS"):
                    self.next()
                    self.expect_op("(")
                    return ("not", ("exists", self.raw_until_close()))
                operand = self.expr(g["NOT"])
                return ("not", operand)
            if w == "NULL":
                self.next()
                return ("lit", None)
            if w in ("TRUE", "FALSE"):
                self.next()
                return ("lit", w == "TRUE")
            if w == "CASE":
                return self.case()
            if w == "CAST" and self.is_op("(", k=1):
                self.next(); self.next()
                e = self.expr(0)
                self.expect_word("AS")
                ty = self.typename()
                self.expect_op(")")
                return ("cast", e, ty)
            if w == "EXISTS" and self.is_op("(", k=1):
                self.next(); self.next()
                return ("exists", self.raw_until_close())
            if w == "BINARY" and self.d == "mysql":
                self.next()
                return ("func", "binary", [self.expr(g["COLLATE"])])
            if w in ("SELECT", "FROM", "WHERE", "AND", "OR", "THEN", "ELSE", "END", "WHEN", "AS", "IS", "IN", "LIKE", "BETWEEN", "ESCAPE", "COLLATE"):
                raise ParseError("unexpected keyword %s at %d" % (w, tok.pos))
            self.next()
            return self.after_name(tok.val, quoted=False)
        raise ParseError("unexpected token %s" % (tok,))

    def after_name(self, name: str, quoted: bool):
        if self.is_op("(") and not quoted:
            self.next()
            args = []
            if self.is_op("*"):
                self.next()
                args.append(("lit", "*"))
            elif not self.is_op(")"):
                if self.is_word("DISTINCT"):
                    self.next()
                    args.append(("lit", "DISTINCT"))
                args.append(self.expr(0))
                while self.is_op(","):
                    self.next()
                    args.append(self.expr(0))
            self.expect_op(")")
            return ("func", name.lower(), args)
        parts = [name]
        while self.is_op(".") and self.peek(1).kind in ("word", "ident"):
            self.next()
            parts.append(self.next().val)
        return ("col", parts[-1] if len(parts) <= 2 else ".".join(parts))

    def case(self):
        self.expect_word("CASE")
        operand = None
        if not self.is_word("WHEN"):
            operand = self.expr(0)
        whens = []
        while self.is_word("WHEN"):
            self.next()
            c = self.expr(0)
            self.expect_word("THEN")
            v = self.expr(0)
            whens.append((c, v))
        if not whens:
            raise ParseError("CASE without WHEN")
        else_ = None
        if self.is_word("ELSE"):
            self.next()
            else_ = self.expr(0)
        self.expect_word("END")
        return ("case", operand, whens, else_)


def parse_expr(sql: str, dialect: str, percent_doubled: bool = False):
    return Parser(tokenize(sql, dialect, percent_doubled), dialect).parse()


def strip_parens(node):
    """Remove ('paren', x) wrappers (grouping only)."""
    if not isinstance(node, tuple):
        if isinstance(node, list):
            return [strip_parens(x) for x in node]
        return node
    if node and node[0] == "paren":
        return strip_parens(node[1])
    return tuple(strip_parens(x) if isinstance(x, (tuple, list)) else x for x in node)
