"""A pure-Python transactional fake DBAPI + a DefaultDialect subclass driving it.

Used by the engine/pool harnesses (C23-C27): everything SQLAlchemy does to a DBAPI connection is
observable (``server.log``), faults can be injected at any DBAPI call (``server.faults``), and no SQL
is compiled (statements go through ``exec_driver_sql``; savepoints are dialect hooks calling the
fake connection directly).

The fake *server* has one table of integer keys with nested-transaction semantics:
``committed`` rows are visible to every connection; each connection has ``pending`` rows and a
savepoint stack.
"""
from __future__ import annotations

from typing import Any, List, Optional, Tuple

from sqlalchemy import pool as sa_pool
from sqlalchemy.engine import default
from sqlalchemy.engine.base import Engine
from sqlalchemy.engine.url import URL


class Error(Exception):
    pass


class OperationalError(Error):
    pass


class ProgrammingError(Error):
    pass


class InterfaceError(Error):
    pass


DEFAULT_ISOLATION = "READ COMMITTED"


class FakeServer:
    def __init__(self):
        self.committed: List[int] = []
        self.connections: List["FakeConnection"] = []
        self.log: List[Tuple[int, str]] = []
        self.calls = 0  # number of DBAPI-level calls so far (fault clock)
        self.faults = {}  # call number -> kind ("disconnect" | "error")
        self.fault_ops = None  # restrict faults to these op names (None = all)
        self.dead = False  # server restarted: every existing connection is dead

    # -- fault clock ------------------------------------------------------------------------
    def tick(self, conn: Optional["FakeConnection"], op: str) -> None:
        self.calls += 1
        n = self.calls
        self.log.append((conn.id if conn is not None else -1, op))
        kind = self.faults.get(n)
        if kind is not None and (self.fault_ops is None or op in self.fault_ops):
            if kind == "disconnect":
                if conn is not None:
                    conn.dead = True
                raise OperationalError("fake: disconnect")
            raise ProgrammingError("fake: injected error in " + op)
        if conn is not None and conn.dead and op not in ("close",):
            raise OperationalError("fake: disconnect")

    def connect(self) -> "FakeConnection":
        self.tick(None, "connect")
        c = FakeConnection(self, len(self.connections))
        self.connections.append(c)
        return c

    def restart(self) -> None:
        for c in self.connections:
            if not c.closed:
                c.dead = True

    def open_connections(self) -> List["FakeConnection"]:
        return [c for c in self.connections if not c.closed]


class FakeConnection:
    def __init__(self, server: FakeServer, id_: int):
        self.server = server
        self.id = id_
        self.closed = False
        self.dead = False
        self.pending: List[int] = []
        self.in_txn = False
        self.savepoints: List[Tuple[str, int]] = []
        self.isolation_level = DEFAULT_ISOLATION
        self.autocommit = False
        self.commits = 0
        self.rollbacks = 0

    def _check(self, op):
        if self.closed:
            raise InterfaceError("fake: connection closed")
        self.server.tick(self, op)

    def cursor(self):
        self._check("cursor")
        return FakeCursor(self)

    def commit(self):
        self._check("commit")
        self.server.committed.extend(self.pending)
        self.pending = []
        self.savepoints = []
        self.in_txn = False
        self.commits += 1

    def rollback(self):
        self._check("rollback")
        self.pending = []
        self.savepoints = []
        self.in_txn = False
        self.rollbacks += 1

    def close(self):
        if self.closed:
            return
        self.server.tick(self, "close")
        self.closed = True
        self.pending = []
        self.savepoints = []
        self.in_txn = False

    # savepoint API used by FakeDialect
    def savepoint(self, name: str):
        self._check("savepoint")
        self.in_txn = True
        self.savepoints.append((name, len(self.pending)))

    def _find(self, name: str) -> int:
        for i in range(len(self.savepoints) - 1, -1, -1):
            if self.savepoints[i][0] == name:
                return i
        raise OperationalError("fake: no such savepoint " + name)

    def rollback_to_savepoint(self, name: str):
        self._check("rollback_to_savepoint")
        i = self._find(name)
        del self.pending[self.savepoints[i][1]:]
        del self.savepoints[i + 1:]

    def release_savepoint(self, name: str):
        self._check("release_savepoint")
        i = self._find(name)
        del self.savepoints[i:]

    def clean(self) -> bool:
        """No state left over from a previous user."""
        return (not self.pending and not self.savepoints and not self.in_txn
                and self.isolation_level == DEFAULT_ISOLATION and not self.autocommit)


class FakeCursor:
    arraysize = 1

    def __init__(self, conn: FakeConnection):
        self.conn = conn
        self.description = None
        self.rowcount = -1
        self._rows: List[tuple] = []
        self.closed = False

    def execute(self, statement, parameters=None):
        self.conn._check("execute")
        words = statement.split()
        verb = words[0].upper()
        if verb == "INSERT":
            k = int(words[1]) if len(words) > 1 else int(parameters[0])
            if self.conn.autocommit:
                self.conn.server.committed.append(k)
            else:
                self.conn.in_txn = True
                self.conn.pending.append(k)
            self.rowcount = 1
            self.description = None
            self._rows = []
        elif verb == "SELECT":
            if not self.conn.autocommit:
                self.conn.in_txn = True
            self._rows = [(k,) for k in list(self.conn.server.committed) + list(self.conn.pending)]
            self.description = (("k", None, None, None, None, None, None),)
            self.rowcount = -1
        elif verb == "FAIL":
            raise ProgrammingError("fake: statement error")
        elif verb == "DISCONNECT":
            self.conn.dead = True
            raise OperationalError("fake: disconnect")
        else:
            raise ProgrammingError("fake: unknown statement " + statement)

    def executemany(self, statement, seq):
        for p in seq:
            self.execute(statement, p)

    def fetchone(self):
        return self._rows.pop(0) if self._rows else None

    def fetchmany(self, size=None):
        n = size or self.arraysize
        out, self._rows = self._rows[:n], self._rows[n:]
        return out

    def fetchall(self):
        out, self._rows = self._rows, []
        return out

    def close(self):
        self.closed = True

    def setinputsizes(self, *a):
        pass

    def setoutputsize(self, *a):
        pass


class FakeDBAPI:
    """Module-like object."""

    paramstyle = "qmark"
    apilevel = "2.0"
    threadsafety = 1
    Error = Error
    OperationalError = OperationalError
    ProgrammingError = ProgrammingError
    InterfaceError = InterfaceError
    DatabaseError = Error
    IntegrityError = Error
    DataError = Error
    InternalError = Error
    NotSupportedError = Error
    Warning = Exception

    def __init__(self, server: FakeServer):
        self.server = server

    def connect(self, *a, **kw):
        return self.server.connect()


class FakeDialect(default.DefaultDialect):
    name = "fake"
    driver = "fake"
    supports_statement_cache = True
    supports_native_boolean = True
    supports_sane_rowcount = True
    default_paramstyle = "qmark"
    supports_savepoints = True if hasattr(default.DefaultDialect, "supports_savepoints") else None

    def __init__(self, **kw):
        super().__init__(**kw)

    @classmethod
    def import_dbapi(cls):  # not used: dbapi passed explicitly
        raise NotImplementedError()

    def create_connect_args(self, url):
        return ([], {})

    def _get_server_version_info(self, connection):
        return (1, 0)

    def _get_default_schema_name(self, connection):
        return None

    def get_isolation_level_values(self, dbapi_conn):
        return ["READ COMMITTED", "SERIALIZABLE", "REPEATABLE READ", "AUTOCOMMIT"]

    def get_default_isolation_level(self, dbapi_conn):
        return DEFAULT_ISOLATION

    def get_isolation_level(self, dbapi_connection):
        c = _raw(dbapi_connection)
        return "AUTOCOMMIT" if c.autocommit else c.isolation_level

    def set_isolation_level(self, dbapi_connection, level):
        c = _raw(dbapi_connection)
        c.server.tick(c, "set_isolation_level:" + level)
        if level == "AUTOCOMMIT":
            c.autocommit = True
        else:
            c.autocommit = False
            c.isolation_level = level

    def reset_isolation_level(self, dbapi_connection):
        c = _raw(dbapi_connection)
        c.server.tick(c, "reset_isolation_level")
        c.autocommit = False
        c.isolation_level = DEFAULT_ISOLATION

    def is_disconnect(self, e, connection, cursor):
        return isinstance(e, OperationalError) and "disconnect" in str(e)

    def do_ping(self, dbapi_connection):
        c = _raw(dbapi_connection)
        c._check("ping")
        return True

    def do_savepoint(self, connection, name):
        _raw(connection.connection.dbapi_connection).savepoint(name)

    def do_rollback_to_savepoint(self, connection, name):
        _raw(connection.connection.dbapi_connection).rollback_to_savepoint(name)

    def do_release_savepoint(self, connection, name):
        _raw(connection.connection.dbapi_connection).release_savepoint(name)


def _raw(c):
    while not isinstance(c, FakeConnection):
        c = getattr(c, "dbapi_connection", None) or getattr(c, "driver_connection")
    return c


def make_engine(server: Optional[FakeServer] = None, **kw) -> Tuple[Engine, FakeServer]:
    """``create_engine("fake://", module=<fake DBAPI>, **kw)`` -- the real construction path
    (pool wiring, first-connect initialisation, execution options)."""
    from sqlalchemy import create_engine
    from sqlalchemy.dialects import registry

    registry.register("fake", "vlib.fakedb", "FakeDialect")
    server = server or FakeServer()
    eng = create_engine("fake://", module=FakeDBAPI(server), **kw)
    return eng, server
