"""Reference parser for the *structure* of simple SELECT statements (as emitted for LIMIT/OFFSET
emulation): SELECT [DISTINCT] [TOP n] items FROM table | (subselect) [AS] alias [WHERE e]
[ORDER BY ...] [LIMIT ..] [OFFSET ..] [FETCH FIRST ..].  Trusted base of C18."""
from __future__ import annotations

from typing import Any, Dict, List, Optional, Tuple

from . import sqlparse
from .sqlparse import ParseError, Parser, Tok

CLAUSE_WORDS = {"FROM", "WHERE", "ORDER", "LIMIT", "OFFSET", "FETCH", "GROUP", "HAVING", "UNION"}


class Plan:
    def __init__(self):
        self.distinct = False
        self.top = None  # expression AST
        self.top_ties = False
        self.items: List[Tuple[Any, Optional[str]]] = []  # (expr AST | ('rownumber', order) | ('rownum',), alias)
        self.source: Any = None  # ('table', name, alias) | ('sub', Plan, alias)
        self.where: Any = None
        self.order_by: List[Tuple[Any, str]] = []
        self.limit: Any = None  # expr AST | 'ALL'
        self.offset: Any = None
        self.fetch: Any = None
        self.fetch_ties = False
        self.fetch_percent = False

    def describe(self):
        return {"distinct": self.distinct, "top": self.top, "items": self.items, "source": (self.source[0], self.source[1].describe() if self.source[0] == "sub" else self.source[1], self.source[2]),
                "where": self.where, "order_by": self.order_by, "limit": self.limit, "offset": self.offset, "fetch": self.fetch}


def _split_top(toks: List[Tok], seps) -> List[List[Tok]]:
    """Split a token list at top-level (depth 0) occurrences of op tokens in seps (e.g. ',')."""
    out, cur, depth = [], [], 0
    case_depth = 0
    for t in toks:
        if t.kind == "op" and t.val == "(":
            depth += 1
        elif t.kind == "op" and t.val == ")":
            depth -= 1
        if depth == 0 and t.kind == "op" and t.val in seps:
            out.append(cur)
            cur = []
            continue
        cur.append(t)
    out.append(cur)
    return out


def _expr(toks: List[Tok], dialect: str):
    p = Parser(list(toks) + [Tok("eof", None, -1)], dialect)
    return sqlparse.strip_parens(p.parse())


def parse_select(sql: str, dialect: str, percent_doubled: bool = False) -> Plan:
    gd = {"mssql": "postgresql", "oracle": "postgresql", "default": "postgresql"}.get(dialect, dialect)
    toks = sqlparse.tokenize(sql, gd, percent_doubled)
    toks = toks[:-1]
    return _parse(toks, gd)


def _is_word(t: Tok, *ws):
    return t.kind == "word" and t.val.upper() in ws


def _parse(toks: List[Tok], gd: str) -> Plan:
    if not toks or not _is_word(toks[0], "SELECT"):
        raise ParseError("SELECT expected at %s" % (toks[:1],))
    plan = Plan()
    i = 1
    if i < len(toks) and _is_word(toks[i], "DISTINCT"):
        plan.distinct = True
        i += 1
    if i < len(toks) and _is_word(toks[i], "TOP"):
        i += 1
        # TOP n | TOP (expr)
        if toks[i].kind == "op" and toks[i].val == "(":
            j = _match_paren(toks, i)
            plan.top = _expr(toks[i + 1:j], gd)
            i = j + 1
        else:
            plan.top = _expr([toks[i]], gd)
            i += 1
        if i + 1 < len(toks) and _is_word(toks[i], "WITH") and _is_word(toks[i + 1], "TIES"):
            plan.top_ties = True
            i += 2
        if i < len(toks) and _is_word(toks[i], "PERCENT"):
            raise ParseError("TOP PERCENT not modelled")
    # split the remainder into clauses at depth 0
    clauses: Dict[str, List[Tok]] = {}
    order: List[str] = []
    cur = "ITEMS"
    clauses[cur] = []
    depth = 0
    k = i
    while k < len(toks):
        t = toks[k]
        if t.kind == "op" and t.val == "(":
            depth += 1
        elif t.kind == "op" and t.val == ")":
            depth -= 1
        if depth == 0 and t.kind == "word" and t.val.upper() in CLAUSE_WORDS:
            w = t.val.upper()
            if w == "ORDER":
                if not (k + 1 < len(toks) and _is_word(toks[k + 1], "BY")):
                    raise ParseError("ORDER without BY")
                k += 1
            if w in clauses:
                raise ParseError("duplicate clause " + w)
            cur = w
            clauses[cur] = []
            order.append(w)
            k += 1
            continue
        clauses[cur].append(t)
        k += 1
    for w in ("GROUP", "HAVING", "UNION"):
        if w in clauses:
            raise ParseError(w + " not modelled")
    # items
    for it in _split_top(clauses["ITEMS"], {","}):
        alias = None
        if len(it) >= 2 and _is_word(it[-2], "AS") and it[-1].kind in ("word", "ident"):
            alias = it[-1].val
            it = it[:-2]
        if not it:
            raise ParseError("empty select item")
        if _is_word(it[0], "ROW_NUMBER"):
            # ROW_NUMBER() OVER (ORDER BY ...)
            if not (len(it) >= 5 and it[1].val == "(" and it[2].val == ")" and _is_word(it[3], "OVER") and it[4].val == "("):
                raise ParseError("unsupported ROW_NUMBER form")
            j = _match_paren(it, 4)
            inner = it[5:j]
            if len(inner) < 2 or not (_is_word(inner[0], "ORDER") and _is_word(inner[1], "BY")):
                raise ParseError("ROW_NUMBER() OVER without ORDER BY (or with PARTITION BY): not modelled")
            plan.items.append((("rownumber", _order_list(inner[2:], gd)), alias))
        elif len(it) == 1 and _is_word(it[0], "ROWNUM"):
            plan.items.append((("rownum",), alias))
        else:
            plan.items.append((_expr(it, gd), alias))
    # FROM
    if "FROM" not in clauses:
        raise ParseError("FROM expected")
    f = clauses["FROM"]
    if f and f[0].kind == "op" and f[0].val == "(":
        j = _match_paren(f, 0)
        sub = _parse(f[1:j], gd)
        rest = f[j + 1:]
        if rest and _is_word(rest[0], "AS"):
            rest = rest[1:]
        if len(rest) != 1 or rest[0].kind not in ("word", "ident"):
            raise ParseError("subquery alias expected")
        plan.source = ("sub", sub, rest[0].val)
    else:
        if not f or f[0].kind not in ("word", "ident"):
            raise ParseError("table name expected")
        rest = f[1:]
        if rest and _is_word(rest[0], "AS"):
            rest = rest[1:]
        alias = rest[0].val if rest else f[0].val
        if len(rest) > 1:
            raise ParseError("joins not modelled")
        plan.source = ("table", f[0].val, alias)
    if "WHERE" in clauses:
        plan.where = _expr(clauses["WHERE"], gd)
    if "ORDER" in clauses:
        plan.order_by = _order_list(clauses["ORDER"], gd)
    if "LIMIT" in clauses:
        parts = _split_top(clauses["LIMIT"], {","})
        if len(parts) == 2:  # MySQL: LIMIT offset, count
            if gd != "mysql":
                raise ParseError("LIMIT a, b is MySQL syntax")
            plan.offset = _expr(parts[0], gd)
            plan.limit = _expr(parts[1], gd)
        else:
            if len(parts[0]) == 1 and _is_word(parts[0][0], "ALL"):
                plan.limit = "ALL"
            else:
                plan.limit = _expr(parts[0], gd)
    if "OFFSET" in clauses:
        o = clauses["OFFSET"]
        if o and _is_word(o[-1], "ROWS", "ROW"):
            o = o[:-1]
        if plan.offset is not None:
            raise ParseError("two offsets")
        plan.offset = _expr(o, gd)
    if "FETCH" in clauses:
        ft = clauses["FETCH"]
        if not ft or not _is_word(ft[0], "FIRST", "NEXT"):
            raise ParseError("FETCH FIRST expected")
        ft = ft[1:]
        tail = []
        while ft and ft[-1].kind == "word" and ft[-1].val.upper() in ("ROWS", "ROW", "ONLY", "WITH", "TIES", "PERCENT"):
            tail.insert(0, ft[-1].val.upper())
            ft = ft[:-1]
        if "TIES" in tail:
            plan.fetch_ties = True
        if "PERCENT" in tail:
            plan.fetch_percent = True
        plan.fetch = _expr(ft, gd)
    # clause order sanity (a backend would reject e.g. LIMIT before ORDER BY)
    canonical = ["FROM", "WHERE", "ORDER", "LIMIT", "OFFSET", "FETCH"]
    idx = [canonical.index(w) for w in order]
    if idx != sorted(idx):
        raise ParseError("clauses out of order: %s" % order)
    return plan


def _order_list(toks: List[Tok], gd: str):
    out = []
    for part in _split_top(toks, {","}):
        direction = "ASC"
        if part and _is_word(part[-1], "ASC", "DESC"):
            direction = part[-1].val.upper()
            part = part[:-1]
        if len(part) >= 2 and _is_word(part[-2], "NULLS"):
            raise ParseError("NULLS FIRST/LAST not modelled")
        out.append((_expr(part, gd), direction))
    return out


def _match_paren(toks: List[Tok], i: int) -> int:
    depth = 0
    for j in range(i, len(toks)):
        if toks[j].kind == "op" and toks[j].val == "(":
            depth += 1
        elif toks[j].kind == "op" and toks[j].val == ")":
            depth -= 1
            if depth == 0:
                return j
    raise ParseError("unbalanced parenthesis")
