"""E3 `pybmc` -- AST-driven bounded model checking with state merging, for util/topological.py.

The functions are *interpreted from their current AST* over symbolic data:
  node universe U = {0..N-1} (concrete), a set of nodes = N z3 Bools, ``defaultdict(set)`` = NxN Bools
  (+ key-presence bits), a list = N-slot symbolic sequence (z3 Int values + symbolic length), the
  ``tuples`` argument = NxN Bools ``E[p][c]``, ``allitems`` = the sequence 0..N-1 filtered by presence bits.
Control flow is merged, not forked: every statement executes under a guard; ``if`` = both branches under
complementary guards; ``for x in <set>`` = unrolled over U (ascending, or descending when
``set_order='desc'``) with membership guards; ``while`` = unrolled ``bound`` times with an *unwinding
assertion* returned as an obligation; ``break``/``for-else``/``raise``/``return``/``yield`` = guards.
Any construct outside this subset raises ``Unsupported`` (the check then fails closed).
"""
from __future__ import annotations

import ast
import inspect
import textwrap
from typing import Any, Callable, Dict, List, Optional, Tuple

import z3


class Unsupported(Exception):
    pass


def B(x):
    return z3.BoolVal(x) if isinstance(x, bool) else x


def And(*xs):
    xs = [x for x in xs if x is not True]
    if any(x is False for x in xs):
        return False
    if not xs:
        return True
    return z3.And(*[B(x) for x in xs]) if len(xs) > 1 else xs[0]


def Or(*xs):
    xs = [x for x in xs if x is not False]
    if any(x is True for x in xs):
        return True
    if not xs:
        return False
    return z3.Or(*[B(x) for x in xs]) if len(xs) > 1 else xs[0]


def Not(x):
    if isinstance(x, bool):
        return not x
    return z3.Not(x)


def Ite(c, a, b):
    if c is True:
        return a
    if c is False:
        return b
    if isinstance(a, bool) and isinstance(b, bool):
        if a == b:
            return a
        return c if a else z3.Not(c)
    if isinstance(a, (bool,)) or isinstance(b, (bool,)) or z3.is_bool(a) or z3.is_bool(b):
        return z3.If(c, B(a), B(b))
    if isinstance(a, int) and isinstance(b, int) and a == b:
        return a
    return z3.If(c, I(a), I(b))


W = 5  # bit-width of node values and list lengths (N <= 7, lengths <= 8): queries are QF_BV / pure SAT


def I(x):
    return z3.BitVecVal(x, W) if isinstance(x, int) and not isinstance(x, bool) else x


def Lt(k: int, x):
    if isinstance(x, int):
        return k < x
    return z3.ULT(z3.BitVecVal(k, W), x)


def Eq(a, b):
    if isinstance(a, int) and isinstance(b, int):
        return a == b
    return I(a) == I(b)


class SymSet:
    def __init__(self, n, bits=None):
        self.n = n
        self.m = list(bits) if bits is not None else [False] * n

    def copy(self):
        return SymSet(self.n, self.m)

    def contains(self, x):
        if isinstance(x, int):
            return self.m[x] if 0 <= x < self.n else False
        return Or(*[And(Eq(x, j), self.m[j]) for j in range(self.n)])

    def add(self, g, x):
        for j in range(self.n):
            self.m[j] = Or(self.m[j], And(g, Eq(x, j)))

    def discard(self, g, x):
        for j in range(self.n):
            self.m[j] = And(self.m[j], Not(And(g, Eq(x, j))))

    def nonempty(self):
        return Or(*self.m)


class DictSets:
    """defaultdict(set) over the universe."""

    def __init__(self, n):
        self.n = n
        self.rows = [SymSet(n) for _ in range(n)]
        self.keys = [False] * n


class RowView:
    """``d[key]`` for a (possibly symbolic) key; reading touches the key (defaultdict semantics)."""

    def __init__(self, d: DictSets, key, g):
        self.d, self.key = d, key
        for i in range(d.n):
            d.keys[i] = Or(d.keys[i], And(g, Eq(key, i)))

    def bits(self):
        d = self.d
        if isinstance(self.key, int):
            return list(d.rows[self.key].m)
        return [Or(*[And(Eq(self.key, i), d.rows[i].m[j]) for i in range(d.n)]) for j in range(d.n)]

    def contains(self, x):
        return SymSet(self.d.n, self.bits()).contains(x)

    def add(self, g, x):
        d = self.d
        for i in range(d.n):
            d.rows[i].add(And(g, Eq(self.key, i)), x)


class SymSeq:
    """List of nodes: ``cap`` slots of Int values + symbolic length."""

    def __init__(self, cap):
        self.cap = cap
        self.v: List[Any] = [0] * cap
        self.len: Any = 0
        self.overflow: Any = False  # an append beyond capacity happened (must be proven impossible)

    def copy(self):
        s = SymSeq(self.cap)
        s.v = list(self.v)
        s.len = self.len
        s.overflow = self.overflow
        return s

    def append(self, g, x):
        self.overflow = Or(self.overflow, And(g, Eq(self.len, self.cap)))
        for k in range(self.cap):
            self.v[k] = Ite(And(g, Eq(self.len, k)), x, self.v[k])
        self.len = Ite(g, I(self.len) + 1 if not isinstance(self.len, int) else self.len + 1, self.len)

    def pop(self, g):
        self.len = Ite(g, I(self.len) - 1 if not isinstance(self.len, int) else self.len - 1, self.len)

    def present(self, k):
        return Lt(k, self.len)

    def last(self):
        res = self.v[0]
        for k in range(1, self.cap):
            res = Ite(Eq(self.len, k + 1), self.v[k], res)
        return res

    def contains(self, x):
        return Or(*[And(self.present(k), Eq(self.v[k], x)) for k in range(self.cap)])

    def nonempty(self):
        return Lt(0, self.len)


class Rel:
    """The ``tuples`` argument: E[p][c]."""

    def __init__(self, n, E):
        self.n, self.E = n, E


class TupleVal:
    def __init__(self, items):
        self.items = items


class Bag:
    """An iterable of nodes given as guarded members [(guard, value)], in order."""

    def __init__(self, members):
        self._m = list(members)

    def members(self):
        return list(self._m)


def SuffixSet(seq: SymSeq, x) -> Bag:
    """``stack[stack.index(x):]`` used as an iterable: slot k is included iff a slot <= k holds x.
    (``index`` raises ValueError when x is absent; callers guard it with ``x in stack``.)"""
    out = []
    seen = False
    for k in range(seq.cap):
        seen = Or(seen, And(seq.present(k), Eq(seq.v[k], x)))
        out.append((And(seq.present(k), seen), seq.v[k]))
    return Bag(out)


class GenResult:
    def __init__(self):
        self.yields: List[Tuple[Any, Any]] = []  # (guard, value)
        self.raised: Any = False
        self.returned: List[Tuple[Any, Any]] = []
        self.obligations: List[Tuple[str, Any]] = []  # (name, formula that must be UNSAT-negated i.e. valid)


class Frame:
    def __init__(self):
        self.env: Dict[str, Any] = {}
        self.alive: Any = True
        self.loops: List[Dict[str, Any]] = []
        self.res = GenResult()


def merge(g, new, old):
    """Value of a variable assigned ``new`` under guard g, previously ``old``."""
    if old is None or g is True:
        return new
    if g is False:
        return old
    if isinstance(new, SymSet) and isinstance(old, SymSet):
        return SymSet(new.n, [Ite(g, a, b) for a, b in zip(new.m, old.m)])
    if isinstance(new, SymSeq) and isinstance(old, SymSeq):
        s = SymSeq(new.cap)
        s.v = [Ite(g, a, b) for a, b in zip(new.v, old.v)]
        s.len = Ite(g, new.len, old.len)
        s.overflow = Or(And(g, new.overflow), And(Not(g), old.overflow)) if (new.overflow is not False or old.overflow is not False) else False
        return s
    if isinstance(new, (int, bool)) or z3.is_expr(new):
        if isinstance(old, (int, bool)) or z3.is_expr(old):
            return Ite(g, new, old)
    if isinstance(new, Bag) and isinstance(old, Bag):
        return Bag([(And(g, a), v) for a, v in new.members()] + [(And(Not(g), a), v) for a, v in old.members()])
    raise Unsupported("cannot merge %s with %s" % (type(new).__name__, type(old).__name__))


class Interp:
    def __init__(self, module_src: str, n: int, set_order: str = "asc", while_bounds: Optional[Dict[str, int]] = None):
        self.tree = ast.parse(module_src)
        self.funcs: Dict[str, ast.FunctionDef] = {f.name: f for f in self.tree.body if isinstance(f, ast.FunctionDef)}
        self.n = n
        self.order = list(range(n)) if set_order == "asc" else list(range(n - 1, -1, -1))
        self.while_bounds = while_bounds or {}
        self.obligations: List[Tuple[str, Any]] = []
        self.while_counter = 0

    # ---------------------------------------------------------------- locality analysis
    @staticmethod
    def _names(node, ctx):
        return [n for n in ast.walk(node) if isinstance(n, ast.Name) and isinstance(n.ctx, ctx)]

    def _analyse_locals(self, fn: ast.FunctionDef) -> Dict[int, set]:
        """For every block B (body of a for/while/if): names whose first mention in B is a top-level
        plain assignment in B and which are never read outside B.  Each execution of B (re)defines such a
        name before any use, so the value from before B can never be observed: assignments to it inside B
        need no merge with the old value (this only keeps the formulas small)."""
        all_loads: Dict[str, List[ast.Name]] = {}
        for n in self._names(fn, ast.Load):
            all_loads.setdefault(n.id, []).append(n)
        res: Dict[int, set] = {}
        for node in ast.walk(fn):
            blocks = []
            if isinstance(node, (ast.For, ast.While)):
                blocks.append(node.body)
            if isinstance(node, ast.If):
                blocks.append(node.body)
                if node.orelse:
                    blocks.append(node.orelse)
            for body in blocks:
                inside = set()
                for st in body:
                    for sub in ast.walk(st):
                        inside.add(id(sub))
                local = set()
                seen = set()
                for st in body:
                    if (isinstance(st, ast.Assign) and len(st.targets) == 1 and isinstance(st.targets[0], ast.Name)
                            and st.targets[0].id not in seen):
                        name = st.targets[0].id
                        reads_in_value = {n.id for n in self._names(st.value, ast.Load)}
                        if name not in reads_in_value and all(id(l) in inside for l in all_loads.get(name, [])):
                            local.add(name)
                    for sub in ast.walk(st):
                        if isinstance(sub, ast.Name):
                            seen.add(sub.id)
                if body:
                    res[id(body[0])] = local
        return res

    # ---------------------------------------------------------------- statements
    def call(self, fname: str, args: List[Any]) -> GenResult:
        fn = self.funcs[fname]
        self.local_info = self._analyse_locals(fn)
        self.local_stack: List[set] = []
        fr = Frame()
        params = [a.arg for a in fn.args.args]
        defaults = fn.args.defaults
        for i, p in enumerate(params):
            if i < len(args):
                fr.env[p] = args[i]
            else:
                d = defaults[i - (len(params) - len(defaults))]
                fr.env[p] = self.expr(d, fr, True)
        self.fname = fname
        self.block(fn.body, fr, True)
        return fr.res

    def guard(self, fr: Frame, g):
        return And(g, fr.alive, *([Not(l["broken"]) for l in fr.loops] + [Not(l.get("continued", False)) for l in fr.loops]))

    def block(self, stmts, fr: Frame, g):
        pushed = False
        if stmts and id(stmts[0]) in getattr(self, "local_info", {}):
            self.local_stack.append(self.local_info[id(stmts[0])])
            pushed = True
        for st in stmts:
            self.stmt(st, fr, g)
        if pushed:
            self.local_stack.pop()

    def assign(self, fr: Frame, name: str, val, g):
        if any(name in loc for loc in self.local_stack):
            fr.env[name] = val  # block-local: the previous value is unobservable (see _analyse_locals)
            return
        eff = self.guard(fr, g)
        fr.env[name] = merge(eff, val, fr.env.get(name))

    def stmt(self, st, fr: Frame, g):
        eff = self.guard(fr, g)
        if eff is False:
            return
        if isinstance(st, ast.Expr):
            if isinstance(st.value, ast.Constant):
                return  # docstring
            if isinstance(st.value, ast.Yield):
                v = self.expr(st.value.value, fr, g)
                fr.res.yields.append((eff, self.snapshot(v)))
                return
            if isinstance(st.value, ast.YieldFrom):
                v = self.expr(st.value.value, fr, g)
                fr.res.yields.append((eff, ("from", self.snapshot(v))))
                return
            self.expr(st.value, fr, g)
            return
        if isinstance(st, ast.AnnAssign):
            if st.value is None:
                return
            tgt = st.target
            if not isinstance(tgt, ast.Name):
                raise Unsupported("annotated assignment target")
            self.assign(fr, tgt.id, self.expr(st.value, fr, g), g)
            return
        if isinstance(st, ast.Assign):
            if len(st.targets) != 1 or not isinstance(st.targets[0], ast.Name):
                raise Unsupported("assignment target " + ast.dump(st.targets[0]))
            self.assign(fr, st.targets[0].id, self.expr(st.value, fr, g), g)
            return
        if isinstance(st, ast.If):
            c = self.truth(self.expr(st.test, fr, g))
            self.block(st.body, fr, And(g, c))
            self.block(st.orelse, fr, And(g, Not(c)))
            return
        if isinstance(st, ast.Raise):
            fr.res.raised = Or(fr.res.raised, eff)
            exc = st.exc
            name = exc.func.id if isinstance(exc, ast.Call) and isinstance(exc.func, ast.Name) else "?"
            fr.res.exc_name = name
            fr.alive = And(fr.alive, Not(eff))
            return
        if isinstance(st, ast.Return):
            v = self.expr(st.value, fr, g) if st.value is not None else None
            fr.res.returned.append((eff, self.snapshot(v)))
            fr.alive = And(fr.alive, Not(eff))
            return
        if isinstance(st, ast.Break):
            if not fr.loops:
                raise Unsupported("break outside loop")
            fr.loops[-1]["broken"] = Or(fr.loops[-1]["broken"], eff)
            return
        if isinstance(st, ast.Continue):
            if not fr.loops:
                raise Unsupported("continue outside loop")
            fr.loops[-1]["continued"] = Or(fr.loops[-1].get("continued", False), eff)
            return
        if isinstance(st, ast.While):
            if st.orelse:
                raise Unsupported("while-else")
            self.while_counter += 1
            key = "%s:while@%d" % (self.fname, st.lineno)
            bound = self.while_bounds.get(key, self.while_bounds.get(self.fname, self.n))
            loop = {"broken": False}
            fr.loops.append(loop)
            for _ in range(bound):
                loop["continued"] = False
                c = self.truth(self.expr(st.test, fr, g))
                self.block(st.body, fr, And(g, c))
            loop["continued"] = False
            c = self.truth(self.expr(st.test, fr, g))
            # unwinding assertion: the loop condition is false after `bound` iterations
            self.obligations.append(("unwind " + key, Not(And(self.guard(fr, g), c))))
            fr.loops.pop()
            return
        if isinstance(st, ast.For):
            it = self.expr(st.iter, fr, g)
            loop = {"broken": False}
            fr.loops.append(loop)
            for ig, val in self.iterate(it, fr, g):
                gi = And(g, ig)
                eff_i = self.guard(fr, gi)
                if eff_i is False:
                    continue
                names = [t.id for t in ([st.target] if isinstance(st.target, ast.Name) else st.target.elts)] \
                    if isinstance(st.target, (ast.Name, ast.Tuple)) and all(isinstance(t, ast.Name) for t in ([st.target] if isinstance(st.target, ast.Name) else st.target.elts)) else None
                if names is None:
                    raise Unsupported("loop target")
                vals = [val] if isinstance(st.target, ast.Name) else list(val.items)
                before = {nm: fr.env.get(nm) for nm in names}
                for nm, v in zip(names, vals):
                    fr.env[nm] = v  # exact value while the body runs under its own guard
                loop["continued"] = False
                self.block(st.body, fr, gi)
                loop["continued"] = False
                for nm in names:
                    fr.env[nm] = merge(eff_i, fr.env[nm], before[nm])
            broken = loop["broken"]
            fr.loops.pop()
            if st.orelse:
                self.block(st.orelse, fr, And(g, Not(broken)))
            return
        if isinstance(st, ast.Pass):
            return
        raise Unsupported("statement " + type(st).__name__)

    def bind(self, target, val, fr: Frame, g):
        if isinstance(target, ast.Name):
            # loop variables are (re)bound for the iteration; merge keeps older value when guard false
            self.assign(fr, target.id, val, g)
            return
        if isinstance(target, ast.Tuple) and isinstance(val, TupleVal) and len(target.elts) == len(val.items):
            for t, v in zip(target.elts, val.items):
                self.bind(t, v, fr, g)
            return
        raise Unsupported("loop target")

    def snapshot(self, v):
        if isinstance(v, (SymSet, SymSeq)):
            return v.copy()
        return v

    def iterate(self, it, fr: Frame, g):
        """Yield (guard, value) pairs in iteration order."""
        if isinstance(it, Rel):
            for p in range(it.n):
                for c in range(it.n):
                    yield it.E[p][c], TupleVal([p, c])
            return
        if isinstance(it, RowView):
            it = SymSet(it.d.n, it.bits())
        if isinstance(it, SymSet):
            bits = list(it.m)
            for j in self.order:
                yield bits[j], j
            return
        if isinstance(it, SymSeq):
            snap = it.copy()
            for k in range(snap.cap):
                yield snap.present(k), snap.v[k]
            return
        if isinstance(it, Bag):
            for gk, v in it.members():
                yield gk, v
            return
        if isinstance(it, GenResult):
            if it.returned:
                raise Unsupported("iterating a generator that returns")
            # exceptions raised by the generator propagate to the consumer
            fr.res.raised = Or(fr.res.raised, And(self.guard(fr, g), it.raised))
            fr.alive = And(fr.alive, Not(it.raised))
            for yg, v in it.yields:
                yield yg, v
            return
        raise Unsupported("iteration over " + type(it).__name__)

    # ---------------------------------------------------------------- expressions
    def truth(self, v):
        if isinstance(v, bool) or z3.is_bool(v):
            return v
        if isinstance(v, (SymSet, SymSeq)):
            return v.nonempty()
        if isinstance(v, RowView):
            return Or(*v.bits())
        raise Unsupported("truth value of " + type(v).__name__)

    def expr(self, e, fr: Frame, g):
        if isinstance(e, ast.Constant):
            if isinstance(e.value, (bool, int, str)) or e.value is None:
                return e.value
            raise Unsupported("constant")
        if isinstance(e, ast.Name):
            if e.id in fr.env:
                return fr.env[e.id]
            if e.id in ("set", "list", "CircularDependencyError", "util"):
                return ("builtin", e.id)
            if e.id in self.funcs:
                return ("func", e.id)
            raise Unsupported("unbound name " + e.id)
        if isinstance(e, ast.Attribute):
            base = self.expr(e.value, fr, g)
            return ("attr", base, e.attr)
        if isinstance(e, ast.List):
            s = SymSeq(self.n)
            for el in e.elts:
                s.append(True, self.expr(el, fr, g))
            return s
        if isinstance(e, ast.UnaryOp) and isinstance(e.op, ast.Not):
            return Not(self.truth(self.expr(e.operand, fr, g)))
        if isinstance(e, ast.UnaryOp) and isinstance(e.op, ast.USub):
            v = self.expr(e.operand, fr, g)
            if isinstance(v, int):
                return -v
            raise Unsupported("unary minus")
        if isinstance(e, ast.Compare):
            if len(e.ops) != 1:
                raise Unsupported("chained comparison")
            l = self.expr(e.left, fr, g)
            r = self.expr(e.comparators[0], fr, g)
            op = e.ops[0]
            if isinstance(op, (ast.In, ast.NotIn)):
                if isinstance(r, (SymSet, SymSeq, RowView)):
                    c = r.contains(l)
                else:
                    raise Unsupported("`in` on " + type(r).__name__)
                return Not(c) if isinstance(op, ast.NotIn) else c
            if isinstance(op, (ast.Eq, ast.Is)):
                if l is None or r is None:
                    return l is r
                return Eq(l, r)
            if isinstance(op, (ast.NotEq, ast.IsNot)):
                if l is None or r is None:
                    return l is not r
                return Not(Eq(l, r))
            raise Unsupported("comparison " + type(op).__name__)
        if isinstance(e, ast.BinOp) and isinstance(e.op, (ast.Add, ast.Sub)):
            l = self.expr(e.left, fr, g)
            r = self.expr(e.right, fr, g)
            ok = lambda x: (isinstance(x, int) and not isinstance(x, bool)) or z3.is_bv(x)  # noqa: E731
            if not (ok(l) and ok(r)):
                raise Unsupported("arithmetic on non-integers")
            if isinstance(l, int) and isinstance(r, int):
                return l + r if isinstance(e.op, ast.Add) else l - r
            return I(l) + I(r) if isinstance(e.op, ast.Add) else I(l) - I(r)
        if isinstance(e, ast.BoolOp):
            vals = [self.truth(self.expr(v, fr, g)) for v in e.values]
            return And(*vals) if isinstance(e.op, ast.And) else Or(*vals)
        if isinstance(e, ast.Subscript):
            base = self.expr(e.value, fr, g)
            if isinstance(base, DictSets):
                key = self.expr(e.slice, fr, g)
                return RowView(base, key, self.guard(fr, g))
            if isinstance(base, SymSeq):
                sl = e.slice
                if isinstance(sl, ast.UnaryOp) and isinstance(sl.op, ast.USub) and isinstance(sl.operand, ast.Constant) and sl.operand.value == 1:
                    return base.last()
                if isinstance(sl, ast.Slice) and sl.upper is None and sl.step is None and sl.lower is not None:
                    lo = self.expr(sl.lower, fr, g)
                    snap = base.copy()
                    return Bag([(And(snap.present(k), Not(Lt(k, lo))), snap.v[k]) for k in range(snap.cap)])
                raise Unsupported("list subscript form")
            raise Unsupported("subscript on " + type(base).__name__)
        if isinstance(e, ast.ListComp):
            if len(e.generators) != 1 or e.generators[0].is_async:
                raise Unsupported("comprehension")
            gen = e.generators[0]
            src = self.expr(gen.iter, fr, g)
            out = SymSeq(self.n)
            saved = dict(fr.env)
            for ig, val in self.iterate(src, fr, g):
                if not isinstance(gen.target, ast.Name):
                    raise Unsupported("comprehension target")
                fr.env[gen.target.id] = val
                cond = ig
                for c in gen.ifs:
                    cond = And(cond, self.truth(self.expr(c, fr, g)))
                out.append(cond, self.expr(e.elt, fr, g))
            fr.env = saved
            return out
        if isinstance(e, ast.Call):
            return self.callexpr(e, fr, g)
        raise Unsupported("expression " + type(e).__name__)

    def callexpr(self, e: ast.Call, fr: Frame, g):
        eff = self.guard(fr, g)
        f = self.expr(e.func, fr, g)
        if e.keywords:
            raise Unsupported("keyword arguments")
        if isinstance(f, tuple) and f[0] == "attr":
            _, base, name = f
            if base == ("builtin", "util") and name == "defaultdict":
                if len(e.args) == 1 and self.expr(e.args[0], fr, g) == ("builtin", "set"):
                    return DictSets(self.n)
                raise Unsupported("defaultdict factory")
            args = [self.expr(a, fr, g) for a in e.args]
            if isinstance(base, (SymSet, RowView)):
                if name == "add" and len(args) == 1:
                    base.add(eff, args[0])
                    return None
                if name == "isdisjoint" and len(args) == 1:
                    other = args[0]
                    ob = other.bits() if isinstance(other, RowView) else other.m
                    bb = base.bits() if isinstance(base, RowView) else base.m
                    return Not(Or(*[And(a, b) for a, b in zip(bb, ob)]))
                if isinstance(base, SymSet):
                    if name == "remove" and len(args) == 1:
                        # KeyError when absent: record as obligation-free raise
                        fr.res.raised = Or(fr.res.raised, And(eff, Not(base.contains(args[0]))))
                        base.discard(eff, args[0])
                        return None
                    if name == "discard" and len(args) == 1:
                        base.discard(eff, args[0])
                        return None
                    if name in ("difference_update", "update", "difference") and len(args) == 1:
                        tgt = base if name != "difference" else base.copy()
                        for ig, v in self.iterate(args[0], fr, g):
                            if name == "update":
                                tgt.add(And(eff, ig), v)
                            else:
                                tgt.discard(And(eff, ig) if name != "difference" else ig, v)
                        return tgt if name == "difference" else None
            if isinstance(base, SymSeq):
                if name == "append" and len(args) == 1:
                    base.append(eff, args[0])
                    return None
                if name == "pop" and not args:
                    base.pop(eff)
                    return None
                if name == "index" and len(args) == 1:
                    # position of the first occurrence (ValueError when absent is recorded as a raise)
                    fr.res.raised = Or(fr.res.raised, And(eff, Not(base.contains(args[0]))))
                    pos = base.cap
                    for k in range(base.cap - 1, -1, -1):
                        pos = Ite(And(base.present(k), Eq(base.v[k], args[0])), k, pos)
                    return pos
            raise Unsupported("method %s on %s" % (name, type(base).__name__))
        if isinstance(f, tuple) and f[0] == "builtin":
            args = [self.expr(a, fr, g) for a in e.args]
            if f[1] == "set":
                s = SymSet(self.n)
                if args:
                    src = args[0]
                    if isinstance(src, DictSets):
                        s.m = list(src.keys)
                    else:
                        for ig, v in self.iterate(src, fr, g):
                            s.add(ig, v)
                return s
            if f[1] == "list" and len(args) == 1:
                s = SymSeq(self.n)
                for ig, v in self.iterate(args[0], fr, g):
                    s.append(ig, v)
                return s
            raise Unsupported("builtin call " + f[1])
        if isinstance(f, tuple) and f[0] == "func":
            args = [self.expr(a, fr, g) for a in e.args]
            saved_name = self.fname
            sub = Interp.__new__(Interp)
            sub.__dict__.update(self.__dict__)
            res = sub.call(f[1], args)
            self.fname = saved_name
            self.local_info = self._analyse_locals(self.funcs[saved_name])
            is_generator = any(isinstance(n, (ast.Yield, ast.YieldFrom)) for n in ast.walk(self.funcs[f[1]]))
            if is_generator:
                return res
            # ordinary function: exceptions propagate to the caller, the value is the merged return value
            fr.res.raised = Or(fr.res.raised, And(eff, res.raised))
            fr.alive = And(fr.alive, Not(And(eff, res.raised)))
            val = None
            for rg, rv in res.returned:
                val = rv if val is None else merge(rg, rv, val)
            return val
        raise Unsupported("call")


def load_source(path: str) -> str:
    return open(path).read()
