"""E1 `symx` -- path-exhaustive symbolic execution of real Python code.

CrossHair 0.0.110's symbolic proxies / opcode tracer / StateSpace (z3) driven by our own loop
(a re-implementation of ``crosshair.core.explore_paths``) that
  * treats ``assume(False)`` (IgnoreAttempt) as a precondition,
  * collects *every* failing path (not only the first) with its realised concrete inputs,
  * exposes the search tree's ``exhausted`` bit,
  * counts z3 ``check()`` calls and solver seconds.

A harness is an ordinary, type-annotated function returning the property as a bool
(symbolic or concrete).  Returning falsy, or raising any ``Exception``, is a failing path.
The same function run on the realised inputs without CrossHair is the replay.
"""
from __future__ import annotations

import inspect
import os
import json
import time
import traceback
from dataclasses import dataclass, field
from typing import Any, Callable, Dict, List, Optional


class Assume(Exception):
    """Raised by ``assume`` when *not* running under CrossHair (concrete replay)."""


def assume(cond: Any) -> None:
    """Precondition.  Under the tracer an unmet assumption abandons the path."""
    if not cond:
        try:
            from crosshair.util import IgnoreAttempt
            from crosshair.tracers import is_tracing

            if is_tracing():
                raise IgnoreAttempt("assume")
        except ImportError:
            pass
        raise Assume()


def _tracing() -> bool:
    try:
        from crosshair.tracers import is_tracing
    except ImportError:
        return False
    return is_tracing()


def concrete(value: Any) -> Any:
    """Deep-realise ``value`` (the solver picks, and the path condition pins, a concrete value).
    Identity outside the tracer."""
    if not _tracing():
        return value
    from crosshair.core import deep_realize

    return deep_realize(value)


def pick(code: Any, n: int) -> int:
    """Solver-chosen index in range(n) as a *concrete* int, decided by a balanced tree of
    z3-decided comparisons (log2(n) forks per path) instead of value-by-value realisation, which
    revisits values and costs solver time quadratic in the number of paths."""
    assume(0 <= code)
    assume(code < n)
    if not _tracing():
        return int(code)
    lo, hi = 0, n
    while hi - lo > 1:
        mid = (lo + hi) // 2
        if code < mid:
            hi = mid
        else:
            lo = mid
    return lo


def native(fn: Callable[..., Any], *args: Any) -> Any:
    """Run ``fn`` on realised arguments with the tracer paused: used for reference models, so that
    CrossHair's replacement dict/set/str models cannot influence the oracle."""
    if not _tracing():
        return fn(*args)
    from crosshair.core import deep_realize
    from crosshair.tracers import NoTracing

    cargs = deep_realize(args)
    _NATIVE_CALLS[0] += 1
    with NoTracing():
        return fn(*cargs)


_NATIVE_CALLS = [0]


@dataclass
class SliceResult:
    name: str
    fixed: Dict[str, Any]
    paths: int = 0
    ok: int = 0
    fail: int = 0
    ignored: int = 0
    unknown: int = 0
    nondeterministic: int = 0
    exhausted: bool = False
    timed_out: bool = False
    failures: List[Dict[str, Any]] = field(default_factory=list)
    samples: List[Dict[str, Any]] = field(default_factory=list)
    solver_queries: int = 0
    solver_time_s: float = 0.0
    wall_s: float = 0.0
    error: Optional[str] = None
    unknown_reasons: Dict[str, int] = field(default_factory=dict)
    nontrivial: int = 0  # distinct realised inputs on paths with >=1 solver decision
    rechecked: int = 0  # passing paths whose representative input was re-run concretely (engine-model check)
    recheck_disagreements: int = 0

    def to_json(self) -> Dict[str, Any]:
        return dict(self.__dict__)


_SOLVER_STATS = {"n": 0, "t": 0.0}
_patched = False


def _patch_z3_stats() -> None:
    global _patched
    if _patched:
        return
    import z3

    orig = z3.Solver.check

    def check(self, *a, **k):
        t0 = time.perf_counter()
        try:
            return orig(self, *a, **k)
        finally:
            _SOLVER_STATS["n"] += 1
            _SOLVER_STATS["t"] += time.perf_counter() - t0

    z3.Solver.check = check  # type: ignore[assignment]
    _patched = True


def _jsonable(v: Any) -> Any:
    if isinstance(v, (str, int, float, bool)) or v is None:
        return v
    if isinstance(v, (list, tuple)):
        return [_jsonable(x) for x in v]
    if isinstance(v, dict):
        return {str(k): _jsonable(x) for k, x in v.items()}
    if isinstance(v, (set, frozenset)):
        return sorted(_jsonable(x) for x in v)
    return repr(v)


def explore(
    fn: Callable[..., Any],
    fixed: Optional[Dict[str, Any]] = None,
    *,
    name: str = "",
    budget_s: float = 30.0,
    per_path_timeout: float = 10.0,
    max_paths: int = 10**9,
    max_failures: int = 25,
    keep_samples: int = 4,
) -> SliceResult:
    """Explore all paths of ``fn`` with the parameters in ``fixed`` held concrete and the
    remaining (annotated) parameters symbolic."""
    import crosshair.core_and_libs  # noqa: F401  (registers opcode patches + library models)
    from crosshair.core import (
        COMPOSITE_TRACER,
        ExceptionFilter,
        Patched,
        deep_realize,
        gen_args,
        realize,
    )
    from crosshair.copyext import CopyMode, deepcopyext
    from crosshair.condition_parser import condition_parser
    from crosshair.options import AnalysisKind
    from crosshair.statespace import (
        CallAnalysis,
        RootNode,
        StateSpace,
        StateSpaceContext,
        VerificationStatus,
    )
    from crosshair.tracers import NoTracing, ResumedTracing
    from crosshair.util import (
        IgnoreAttempt,
        NotDeterministic,
        UnexploredPath,
    )

    _patch_z3_stats()
    fixed = dict(fixed or {})
    full_sig = inspect.signature(fn, eval_str=True)
    sym_params = [p for n, p in full_sig.parameters.items() if n not in fixed]
    sig = inspect.Signature(sym_params)
    res = SliceResult(name=name or fn.__name__, fixed=_jsonable(fixed))
    q0, t0 = _SOLVER_STATS["n"], _SOLVER_STATS["t"]
    wall0 = time.perf_counter()
    cpu_deadline = time.process_time() + budget_s
    root = RootNode()
    exhausted = False
    seen_nontrivial = set()

    def call(bound: inspect.BoundArguments) -> Any:
        return fn(**bound.arguments, **fixed)

    while res.paths < max_paths:
        now = time.process_time()
        if now > cpu_deadline:
            res.timed_out = True
            break
        space = StateSpace(
            execution_deadline=now + per_path_timeout,
            model_check_timeout=(float("inf") if os.environ.get("VERIF_Z3_NOTIMEOUT") else per_path_timeout / 2),
            search_root=root,
        )
        status: Optional[VerificationStatus]
        native_before = _NATIVE_CALLS[0]
        record: Optional[Dict[str, Any]] = None
        kind = "ok"
        with condition_parser([AnalysisKind.PEP316]), Patched(), COMPOSITE_TRACER, NoTracing(), StateSpaceContext(space):
            try:
                pre_args = gen_args(sig)
                args = deepcopyext(pre_args, CopyMode.REGULAR, {})
                ret: Any = None
                with ExceptionFilter() as ef, ResumedTracing():
                    ret = call(args)
                if ef.ignore:
                    raise IgnoreAttempt("precondition")
                detail = None
                if ef.user_exc is not None:
                    exc = ef.user_exc[0]
                    if isinstance(exc, NotDeterministic):
                        raise exc
                    good = False
                    detail = "".join(
                        traceback.format_exception_only(type(exc), exc)
                    ).strip()[:500]
                else:
                    with ResumedTracing():
                        good = bool(realize(ret))
                with ResumedTracing():
                    space.detach_path()
                    concrete = deep_realize(pre_args)
                record = {"args": _jsonable(dict(concrete.arguments))}
                if len(space.choices_made) > 1:
                    seen_nontrivial.add(json.dumps(record["args"], sort_keys=True))
                if detail:
                    record["symbolic_exception"] = detail
                if good:
                    status = VerificationStatus.CONFIRMED
                    kind = "ok"
                else:
                    status = VerificationStatus.REFUTED
                    kind = "fail"
            except IgnoreAttempt:
                status = None
                kind = "ignored"
            except UnexploredPath as e:
                status = VerificationStatus.UNKNOWN
                kind = "unknown"
                r = type(e).__name__
                res.unknown_reasons[r] = res.unknown_reasons.get(r, 0) + 1
            except NotDeterministic:
                status = VerificationStatus.UNKNOWN
                kind = "unknown"
                res.nondeterministic += 1
                res.unknown_reasons["NotDeterministic"] = (
                    res.unknown_reasons.get("NotDeterministic", 0) + 1
                )
            try:
                _, exhausted = space.bubble_status(CallAnalysis(status))
            except NotDeterministic:
                res.nondeterministic += 1
                exhausted = False
        res.paths += 1
        if kind == "ok" and record is not None and _NATIVE_CALLS[0] == native_before:
            # engine-model cross-check: the path passed symbolically and the code under test ran under
            # the tracer (no native() section): re-run its representative input concretely.  A concrete
            # failure means CrossHair's model of some library call is wrong on this path; it is treated
            # as a failing path (and then goes through the ordinary replay).
            res.rechecked += 1
            try:
                rr = run_concrete(fn, dict(concrete.arguments, **fixed))
            except BaseException as e:  # noqa: BLE001
                rr = {"holds": False, "exception": repr(e)[:300]}
            if not rr.get("holds", True):
                res.recheck_disagreements += 1
                kind = "fail"
                record["symbolic_exception"] = "passed symbolically, fails concretely: %s" % (rr.get("exception"),)
        if kind == "ok":
            res.ok += 1
            if record is not None and len(res.samples) < keep_samples:
                res.samples.append(record)
        elif kind == "fail":
            res.fail += 1
            if record is not None and len(res.failures) < max_failures:
                res.failures.append(record)
        elif kind == "ignored":
            res.ignored += 1
        else:
            res.unknown += 1
        if exhausted:
            break
    res.exhausted = bool(exhausted)
    res.nontrivial = len(seen_nontrivial)
    res.solver_queries = _SOLVER_STATS["n"] - q0
    res.solver_time_s = round(_SOLVER_STATS["t"] - t0, 3)
    res.wall_s = round(time.perf_counter() - wall0, 3)
    return res


def run_concrete(fn: Callable[..., Any], args: Dict[str, Any]) -> Dict[str, Any]:
    """Replay: run the harness on concrete inputs without CrossHair."""
    try:
        ok = bool(fn(**args))
        return {"holds": ok, "exception": None}
    except Assume:
        return {"holds": True, "exception": None, "precondition_unmet": True}
    except Exception as e:  # noqa: BLE001 - harness failure is the observation
        return {
            "holds": False,
            "exception": "".join(traceback.format_exception_only(type(e), e)).strip()[
                :800
            ],
        }


if __name__ == "__main__":
    import sys

    print(json.dumps({"ok": True, "argv": sys.argv}))
