"""Generic parallel map for non-E1 engines: ``python -m vlib.chunkworker <module> <func> <tier> <i> <n>``
calls ``module.func(tier, i, n)`` (which handles the items with index % n == i) and prints its JSON
result prefixed with ``@@``.  Fresh interpreters are used (not forks), see vlib/worker.py."""
from __future__ import annotations

import importlib
import json
import os
import sys
import traceback


def main(argv):
    if os.environ.get("VERIF_PUREPY", "1") == "1":
        from . import purepy

        purepy.install()
    mod_name, func, tier, i, n = argv[0], argv[1], argv[2], int(argv[3]), int(argv[4])
    real = os.fdopen(os.dup(1), "w")
    os.dup2(2, 1)
    sys.stdout = sys.stderr
    try:
        mod = importlib.import_module(mod_name)
        res = getattr(mod, func)(tier, i, n)
    except BaseException as e:  # noqa: BLE001
        res = {"error": "".join(traceback.format_exception(type(e), e, e.__traceback__))[-3000:]}
    real.write("@@" + json.dumps(res, default=str) + "\n")
    real.flush()


if __name__ == "__main__":
    main(sys.argv[1:])
