"""Import SQLAlchemy's dual-implementation ``*_cy`` modules from their ``.py`` source.

The shipped ``.so`` files are opaque to the symbolic tracer, may be stale w.r.t. an edited
source, and cannot be rebuilt here (no Cython in /venv).  ``install()`` must run before
``sqlalchemy`` is imported.
"""
from __future__ import annotations

import importlib.abc
import importlib.machinery
import importlib.util
import os
import sys

REPO_LIB = os.environ.get("VERIF_REPO_LIB", "/repo/lib")

CY_MODULES = {
    "sqlalchemy.util._collections_cy": "sqlalchemy/util/_collections_cy.py",
    "sqlalchemy.util._immutabledict_cy": "sqlalchemy/util/_immutabledict_cy.py",
    "sqlalchemy.engine._processors_cy": "sqlalchemy/engine/_processors_cy.py",
    "sqlalchemy.engine._result_cy": "sqlalchemy/engine/_result_cy.py",
    "sqlalchemy.engine._row_cy": "sqlalchemy/engine/_row_cy.py",
    "sqlalchemy.engine._util_cy": "sqlalchemy/engine/_util_cy.py",
    "sqlalchemy.sql._util_cy": "sqlalchemy/sql/_util_cy.py",
}


class _PurePyFinder(importlib.abc.MetaPathFinder):
    def find_spec(self, fullname, path=None, target=None):
        rel = CY_MODULES.get(fullname)
        if rel is None:
            return None
        fn = os.path.join(REPO_LIB, rel)
        if not os.path.exists(fn):
            return None
        loader = importlib.machinery.SourceFileLoader(fullname, fn)
        return importlib.util.spec_from_file_location(fullname, fn, loader=loader)


_installed = False


def install() -> None:
    global _installed
    if _installed:
        return
    if "sqlalchemy" in sys.modules:
        raise RuntimeError("purepy.install() must run before sqlalchemy is imported")
    sys.dont_write_bytecode = True
    sys.meta_path.insert(0, _PurePyFinder())
    _installed = True


def is_pure() -> bool:
    import sqlalchemy.util._has_cython as h

    return not any(m._is_compiled() for m in h._all_cython_modules())
