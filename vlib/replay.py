"""Concrete replay of counterexamples against /repo, without CrossHair.

  python -m vlib.replay --batch     (JSON list of records on stdin; one JSON result per line)
  python -m vlib.replay <file>      (one record; exit 1 if the violation reproduces)

VERIF_PUREPY=1 (default) imports the ``*_cy`` modules from their .py source (the current tree);
VERIF_PUREPY=0 uses whatever a plain ``import sqlalchemy`` gives (compiled extensions).
"""
from __future__ import annotations

import importlib
import json
import os
import sys


def _setup():
    if os.environ.get("VERIF_PUREPY", "1") == "1":
        from . import purepy

        purepy.install()


def run_record(rec):
    from . import symx

    mod = importlib.import_module(rec["module"])
    if rec.get("engine", "symx") == "symx":
        hs = {h.name: h for h in mod.harnesses(rec.get("tier", "quick"))}
        if rec["harness"] not in hs:
            hs = {h.name: h for h in mod.harnesses("thorough")}
        fn = hs[rec["harness"]].fn
        return symx.run_concrete(fn, rec["args"])
    return mod.replay(rec)


def run_isolated(rec, timeout=120):
    """Run one record in a forked child so replays cannot contaminate each other."""
    r, w = os.pipe()
    pid = os.fork()
    if pid == 0:
        os.close(r)
        try:
            import signal

            signal.alarm(int(timeout))
            res = run_record(rec)
        except BaseException as e:  # noqa: BLE001
            res = {"holds": True, "replay_error": repr(e)[:500]}
        try:
            os.write(w, json.dumps(res, default=str).encode())
        finally:
            os._exit(0)
    os.close(w)
    chunks = []
    while True:
        b = os.read(r, 65536)
        if not b:
            break
        chunks.append(b)
    os.close(r)
    os.waitpid(pid, 0)
    try:
        return json.loads(b"".join(chunks).decode())
    except Exception:
        return {"holds": True, "replay_error": "child died without result"}


def main(argv):
    _setup()
    if argv and argv[0] == "--batch":
        recs = json.load(sys.stdin)
        # import once in the parent so children fork with warm modules
        for m in {r["module"] for r in recs}:
            importlib.import_module(m)
        for rec in recs:
            print(json.dumps(run_isolated(rec), default=str), flush=True)
        return 0
    rec = json.load(open(argv[0]))
    res = run_isolated(rec)
    print(json.dumps(res, indent=1, default=str))
    if not res.get("holds", True):
        print("REPRODUCED property=%s %s" % (rec.get("property"), rec.get("what", "")))
        return 1
    print("not reproduced")
    return 0


if __name__ == "__main__":
    sys.exit(main(sys.argv[1:]))
