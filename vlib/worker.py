"""Persistent E1 worker: ``python -m vlib.worker <module> <tier>``; reads {"h":name,"i":idx} JSON
lines on stdin, explores that slice, writes one JSON result line (prefixed ``@@``) on stdout.

Workers are fresh interpreters (not forks of the orchestrator): forked siblings were measured to
contend heavily (3x fewer paths/s at 16 workers) while independent processes scale linearly."""
from __future__ import annotations

import importlib
import json
import os
import sys
import traceback


def main(argv):
    if os.environ.get("VERIF_PUREPY", "1") == "1":
        from . import purepy

        purepy.install()
    from . import symx

    mod_name, tier = argv[0], argv[1]
    real_stdout = os.fdopen(os.dup(1), "w")
    # harness code must not be able to corrupt the protocol stream
    os.dup2(2, 1)
    sys.stdout = sys.stderr
    import crosshair.core_and_libs  # noqa: F401

    mod = importlib.import_module(mod_name)
    hs = {h.name: h for h in mod.harnesses(tier)}
    real_stdout.write("@@READY\n")
    real_stdout.flush()
    for line in sys.stdin:
        line = line.strip()
        if not line:
            continue
        task = json.loads(line)
        h = hs[task["h"]]
        fixed = h.slices[task["i"]]
        try:
            r = symx.explore(h.fn, fixed, name=h.name, budget_s=h.budget_s,
                             per_path_timeout=h.per_path_timeout, max_paths=h.max_paths).to_json()
        except BaseException as e:  # noqa: BLE001
            r = symx.SliceResult(name=h.name, fixed=symx._jsonable(fixed)).to_json()
            r["error"] = "".join(traceback.format_exception(type(e), e, e.__traceback__))[-3000:]
        real_stdout.write("@@" + json.dumps(r, default=str) + "\n")
        real_stdout.flush()


if __name__ == "__main__":
    main(sys.argv[1:])
